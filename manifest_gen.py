#!/usr/bin/env python3
"""Regenerates MANIFEST.json from the table below (keeps it schema-valid at all times)."""
import json, os
V = os.path.dirname(os.path.abspath(__file__))
PROPS = [json.loads(l) for l in open(os.path.join(V, "properties.jsonl"))]

# property id -> (technique, level text, level note, design ref)
CLAIMED = {
    "C01": ("guard-dominance analysis over rustc MIR against operation-contract tables (Tables P/M/O), failure-atomicity reachability",
            "For every mutation / hand-out site of MemoryFS and every backend call of the path layer the dominating branch outcomes (expanded through in-crate callees) must contain the operation's documented preconditions; missing targets build FileNotFound, occupied create_dir reports by occupant type; no mutation is followed by an Err return; PhysicalFS operations consist of exactly their std call; adapters re-use C07/C09 rules.",
            "Decides precondition/refusal/error-kind clauses for all histories; 'a successful call changes exactly the named entries' is not decided. Table O is frozen from POSIX/Linux semantics.", "DESIGN.md §4 C01"),
    "C02": ("sibling cross-check (MemoryFS guards as found in MIR vs OS-enforced guards of the std callee PhysicalFS uses)",
            "Operation by operation the guard set found in MemoryFS's code is compared with the guard set the OS enforces for the std call PhysicalFS makes (callee read from the MIR, enforced set from the frozen Table O, plus guards PhysicalFS codes itself); error classes compared through the normalisation rules; Table P is backend independent.",
            "Decides that both backends refuse the same calls with the same error classes; equality of resulting trees/bytes is not decided.", "DESIGN.md §4 C02"),
    "C03": ("invariant-preservation obligations per mutation site (guard dominance over rustc MIR)",
            "Inductive step of tree well-formedness: every add site guarded by parent-exists (+ parent-is-directory in the path layer), every overwrite by not-a-directory, every remove by type and emptiness, overlay removals/creations by union guards, writer publication re-validation; root constructed as a directory.",
            "Interleavings are C16's rule; symlink games on PhysicalFS out of scope.", "DESIGN.md §4 C03"),
    "C06": ("guard-dominance and value-origin analysis of the joiner and accessors over rustc MIR",
            "Component filter ('.', '..', empty) dominates the only push; base selection and the single parent fallback; trailing-slash rejection exactly on its edge before any component; results assembled only from base and '/'+component; one shared implementation for sync/async paths; equality = string ∧ Arc::ptr_eq; filename/extension shape; no undischarged panic site.",
            "Necessary conditions for canonical form and root confinement; that the output equals lexical resolution for every string (and the composition law) is functional correctness over all strings and is not decided by this family.", "DESIGN.md §4 C06"),
    "C07": ("value-origin analysis + delegation table over rustc MIR (single gate, strip edges, exact delegation)",
            "AltrootFS (sync+async): root field read only in the translator; join argument stripped exactly on the leading-'/' edge; every FileSystem method makes exactly one inner call of the same name on translator(own argument) and returns its result unchanged (three reasoned exceptions); listings return bare names; PhysicalFS::get_path strips on every path that starts with '/'; C06 joiner rules shared.",
            "Lexical confinement only (symlinks out of scope, as the property states); outcome equality beyond delegation identity is the inner filesystem's contract (C01).", "DESIGN.md §4 C07"),
    "C09": ("guard-dominance analysis on union predicates (Table U), resolver order, merged-listing shape, marker protocol (shared with C10)",
            "Each upper-layer mutation of the overlay must be dominated (per path where needed) by the operation's preconditions evaluated on the union view; resolver consults the marker first and visits layers in order; listing merges all layers into a set and subtracts markers by exact suffix; removal/re-creation rest on the marker protocol.",
            "Value-level union semantics (type conflicts across layers, bytes) not decided.", "DESIGN.md §4 C09"),
    "C10": ("pairing / must-pass-through / who-may-call analysis of the whiteout-marker protocol over rustc MIR",
            "Marker created on every success return of remove_* (tail calls count as success returns) and after the upper copy is removed; consulted before every layer lookup; on re-creation exactly the path's own marker is removed and only after the upper create; nothing else in the overlay touches the marker namespace; reserved namespace hidden (known finding).",
            "Listing contents are value-level; reserved names are excluded from the property's domain.", "DESIGN.md §4 C10"),
    "C04": ("value-origin and pairing analysis over rustc MIR (publication on flush/drop, session start, length sources, copy routing)",
            "Where a write session's bytes go: flush inserts the writer's own buffer under the captured destination on every successful return and drop always flushes; create starts empty (PhysicalFS: create+truncate), append seeds with the existing bytes and seeks End(0); metadata lengths come from the content / Metadata::len / stored length (0 for directories); generic copies stream self.open_file() into destination.create_file(); overlay copy-up and read delegation; reader window shape.",
            "Byte equality for all contents and buffer sizes depends on std Cursor/File/io::copy (trusted) and is not decided.", "DESIGN.md §4 C04"),
    "C05": ("value-origin and guard analysis of the observers over rustc MIR (child-path construction, is_file/is_dir, pre-order walk, key filter, merged listing, listable/readable guards)",
            "Structural couplings between exists/metadata/read_dir/open_file/walk_dir: children are self.path + '/' + name on the same fs; is_file/is_dir = exists ∧ type; the walk yields an item in the call that queues it and only descends into directories taken from the stack; MemoryFS lists exactly the keys with the 'dir/' prefix and no further '/'; overlay set-merge minus markers and marker-first resolver; per-backend listable/readable guards; EmbeddedFS index construction.",
            "Agreement of the observers in every reachable state needs the state and is not decided; ordering inside one directory is unspecified.", "DESIGN.md §4 C05"),
    "C11": ("guard-dominance, kind-switch and value-origin analysis of the composite path operations over rustc MIR",
            "Destination guard before any mutation (copy_dir: first mutation is the refusing create_dir), fast path only under Arc::ptr_eq with (src,dest) order and NotSupported as the only fall-through, generic routes (io::copy self->destination; per walked item create_dir/copy_file at destination.join(relative) by the item's type), copy_dir counter, source removal only after the copy, create_dir_all attempt-then-tolerate, backend fast paths = fs::copy/fs::rename, removal primitives really remove (Table M, overlay marker protocol).",
            "That fast path and generic route produce identical trees, and exactness as a set of entries, are behavioural and not decided.", "DESIGN.md §4 C11"),
    "C14": ("value-origin and guard analysis of the hand-written in-memory handles over rustc MIR",
            "Reader seek arms by origin (End reads the length and never the cursor, Current the cursor, Start the payload), failure exactly on the checked-arithmetic None edge and never for positions past the end, read window n = min(buf.len(), len saturating- pos) with matching copy/advance/return, single-byte arm at the same start; writer write/seek are plain Cursor delegations, publication on flush/drop, append at End(0); which handle types backends hand out; async reader same rules.",
            "Call-by-call equivalence with std::io::Cursor for every script is a refinement proof and is not decided; File/Cursor contracts trusted.", "DESIGN.md §4 C14"),
    "C15": ("sibling agreement: all World-parametric rule sets re-evaluated on the async twins + twin event-set comparison + typestate/pairing analysis of WalkDirIterator::poll_next",
            "The async path type, trait defaults, four backends and handles must satisfy the same structural rules as their sync twins (≈300 obligations), twin functions must agree as sets of semantic events (callees, error kinds, literals, matched variants) modulo a reasoned benign table, and poll_next must keep futures/items across Pending, never poll a completed future, and pop a directory only on Ready.",
            "Executor liveness and async-std vs std agreement are trusted; byte-level equality not decided. Known divergences (AsyncMemoryFS timestamps, publish-on-drop writer, tokio-dependent setters) are listed as known findings.", "DESIGN.md §4 C15"),
    "C17": ("control-dependence + kind-switch + lock-region analysis over rustc MIR",
            "create_dir_all (both worlds) attempts create_dir on each prefix without any prior observation and tolerates exactly DirectoryExists; MemoryFS decides occupied/vacant and inserts in one write-lock region with no lock event under a live guard; PhysicalFS attempts mkdir without asking first and classifies AlreadyExists; altroot/overlay keep the DirectoryExists kind, un-mark after the create and materialise parents with create_dir_all.",
            "Sufficient structural argument for all interleavings without concurrent removals; mkdir atomicity trusted; PhysicalFS stress part of the quantifier is a runtime matter.", "DESIGN.md §4 C17"),
    "C18": ("body-shape, type-structure and guard analysis of impls/embedded.rs over rustc MIR; compile-fail witness (thorough)",
            "Mutators are single-exit Err(NotSupported) bodies and optional mutators are not overridden; no interior mutability in any field type and no static mut; the path is consumed only through the one normalising step (or under a proven-safe guard); FileNotFound only on lookup misses; exists/metadata consult files then directories with the normalised key; the index construction registers every ancestor (no early loop exit, both Cow arms split at the last separator); lengths; no undischarged panic site.",
            "Not applicable to this family: that the two maps equal the embedded folder and bytes equal the files on disk (build-time data of the rust-embed derive).", "DESIGN.md §4 C18"),
    "C19": ("field-footprint and callee-identity analysis over rustc MIR",
            "Each MemoryFS setter writes exactly its own field of the entry at its own path from the time argument; metadata copies same-named fields; flush carries created/accessed over from the entry found at flush time; PhysicalFS setters call exactly filetime::set_file_mtime / set_file_atime and creation time is not overridden; altroot delegates exactly; overlay metadata returns the resolved entry's metadata unchanged; embedded does not override setters.",
            "That the OS stores the exact value (precision/range) is a runtime quantity and is not decided. Overlay setters on lower-only files are a known finding.", "DESIGN.md §4 C19"),
    "C08": ("effect + provenance analysis over rustc MIR (mutated-operand origin, observer purity)",
            "Static effect/provenance analysis of every call site reachable from OverlayFS (sync and async): each path operand in a mutated position must originate from layers[0]; observers must reach no mutating call. Necessary and, under the stated assumption, sufficient for the property, for all histories/inputs/stackings at once.",
            "Assumes a layer's own observing methods do not mutate that layer (checked as a note for in-crate backends, assumed for foreign FileSystem impls); trusts rustc's MIR and callee resolution.", "DESIGN.md §4 C08"),
    "C12": ("typestate analysis (labelled/unlabelled VfsError) + who-may-construct + field-footprint rules over rustc MIR; compile-fail witnesses (thorough)",
            "Every error that a path-layer function can return is traced to its sources over the MIR; backend/std results and fresh constructions must pass through with_path with a caller-namespace string. error.rs: VfsError literal only in From<VfsErrorKind> (NotFound normalisation), with_* helpers never touch `kind`, optional trait defaults build NotSupported. Covers all failing calls/states/stackings because the rule is over code paths, not executions.",
            "Decides labelling and the classification constructs, not message texts; trusts rustc MIR and the closure-inlining of map_err closures; adapters may return inner paths by design (the outer path layer relabels).", "DESIGN.md §4 C12"),
    "C13": ("panic-site inventory over rustc MIR with machine-checked discharge idioms and reviewed records; clippy cross-reference (thorough)",
            "All Assert terminators and all calls into a frozen table of panicking std callees in every function of the crate (sync, embedded, async) must be proven unreachable by a guard/origin idiom or a reviewed record whose premises are re-checked each run. Proof-style necessary-and-sufficient for the inventoried panic classes; errs towards alarm.",
            "Not covered: allocation failure, stack overflow, panics inside std/dependencies on valid arguments, async 'resumed after completion' (covered structurally by C15 R15.4). Assumes the FileSystem path contract and std/rust-embed contracts listed in the evidence.", "DESIGN.md §4 C13"),
    "C16": ("lock-region analysis over rustc MIR (guard live ranges, lock events per path, re-entrancy, publication re-validation)",
            "Sufficient structural conditions for per-call linearizability of MemoryFS under every schedule: one critical section per operation, no lock event under a live guard (incl. callees/closures), no panic under the lock, writer publication re-validates. Violations of the sufficient condition are triaged (known findings / reviewed exceptions).",
            "Sufficient, not necessary: a flagged method is a finding only after reading (R16.4 exceptions). Assumes std RwLock semantics and that all map accesses go through the guard (type system).", "DESIGN.md §4 C16"),
    "C20": ("Result-consumer classification + Err-edge reachability over rustc MIR with a frozen escape table",
            "In adapters and the path layer (sync+async) the Err of every Result<_, VfsError|io::Error> may only propagate, be preserved, or be matched with all non-escape arms leading to error returns; discarding combinators, unused results and Err edges reaching a success return are violations unless the error stems from pure path computation or a listed escape (NotSupported fast paths, DirectoryExists in create_dir_all, FileNotFound in overlay exists). Covers every fault position k at once.",
            "Does not decide whether an alternative route reproduces the full effect, nor partial effects left behind by a failed composite; panicking consumers are C13's concern.", "DESIGN.md §4 C20"),
}
# additions after the second seeding wave (DESIGN.md §4b); appended to the level text
ADDENDA = {
    "C14": " Wave 5: handle surface rules; overlay append copy-up.",
    "C01": " Evaluated on the sync and the async world (A/ obligations). Also: the stream route of copy/move opens the source before it creates the destination; optional native two-path operations of the in-memory backend must establish destination-parent-is-a-directory themselves; PhysicalFS::exists never fails. remove_dir_all returns Ok only after remove_dir(self); append_file leaves the stored entry untouched; a write handle is built only after all fallible checks; merged-listing rules. Wave 5: overlay append_file starts from a complete copy_file copy-up of the resolved file (no hand-made copy, no append after a failed copy-up); generic copy_dir/move_dir routes on the async world; the whole buffer is published on flush.",
    "C02": " Also: PhysicalFS::exists has no Err return (the map lookup cannot fail), the in-memory read/write handles satisfy the cursor rules of C14, the stream copy route opens the source before creating the destination. The guard-set comparison and the not-found class rule also run on the async pair; FileNotFound is built only on lookup misses; PhysicalFS::move_dir maps every rename failure to NotSupported; the PhysicalFS translator gate (host-valid names reach the OS unchanged). Wave 5: every construction of the in-memory state (new, Default — hand-written or derived, literals) contains the root directory; the in-memory handles override only the required Read/Write/Seek methods and the reader holds no shared state.",
    "C03": " Evaluated on both worlds. Also: merged-listing rules (what a listing hides is exactly what was removed), source-before-destination in the stream copy route, two-path row of Table M (whole-map replacement counts as insertion). Check and mutation of the in-memory backends share one critical section (R16.1/R16.5/R16.6 imported); copy_dir/move_dir create directories through the path type. Wave 5: every construction of the map holder inserts the root as a Directory.",
    "C04": " Evaluated on both worlds (async writer publication incl. the flush clause, async copy-up direction, async session start/length/routing). The writer's buffer is moved out only on the drop path (close-then-drop cannot publish an emptied buffer); whatever a write session or an overlay copy creates ends with the path's deletion marker absent. The whole buffer is published (no slice/truncation); reader seek bases. Wave 5: handle surface rules (only required trait methods, reader owns its bytes); overlay append copy-up rules; overlay open_file returns the resolved layer's handle unchanged.",
    "C05": " Evaluated on both worlds; native two-path operations of the in-memory backends must place entries below a directory. filename() shape (adapters rebuild listed names with it); lossless name conversion in PhysicalFS::read_dir. Wave 5: VfsPath::exists answers with the backend's answer, never a path-dependent constant; altroot translator rules (a translator that refuses a name makes exists and the listing disagree); embedded data asked only after an index hit (found F32).",
    "C06": " join hands its argument to the shared normaliser unchanged (no trimming / prefix stripping in the wrapper), both path types.",
    "C07": " Shares C06's join pass-through rule (listed children never pass the join wrapper). The PhysicalFS translator joins the path argument itself (at most without its leading '/'): no rewriting after normalisation. The altroot translator builds no error of its own; remove_dir_all removes an adapter's root like any directory. Wave 5: the rename fallback of move_dir is checked per return arm.",
    "C08": " Also: a copy-up is an independent copy — (Async)PhysicalFS::copy_file performs exactly fs::copy (no hard link / rename). The in-crate backends' observing methods issue no mutating call (known finding: MemoryFS::open_file bumps the access time); native fast paths of the path layer run only under Arc::ptr_eq. The constructor stores the layers as given.",
    "C09": " Evaluated on both worlds (Table U, resolver, listing, materialisation, marker protocol of AsyncOverlayFS). Layer paths are joined relative to the layer; the listing starts with a resolver lookup and can skip a shadowed non-directory entry; append_file resolves its target before materialising parents; materialisation depends only on the union lookup. Wave 5: append_file row of Table U (copy-up is copy_file, direction resolved layer -> upper, never appended to after a failure); a failed materialisation is propagated with `?`.",
    "C10": " Evaluated on both worlds; remove_dir_all dispatches children by their own type and removes the directory last. Layer/marker paths are joined relative to the write layer; an overlay override of copy_file/move_file/move_dir must leave the destination's marker absent. exists answers positively only past the marker; a failed marker read fails the listing. Wave 5: append_file row of Table U on both worlds.",
    "C11": " Evaluated on both worlds; source opened before destination created in the stream route; two-path row of Table M. Wave 5: copy_dir/move_dir refuse nothing but an existing destination; the destination is created only after the source was opened.",
    "C12": " with_path stores its argument unconditionally (mutate-self and struct-update shapes). io::Error-carrying kinds are constructed only in error.rs; overlay setters run nothing with another error class in front of the delegation; async PhysicalFS create_dir classification. io NotFound normalisation is unconditional; overlay create_dir kinds follow the union entry. Wave 5: a failing occupant probe in PhysicalFS::create_dir does not replace the exists-kind; a failed parent materialisation of the overlay is propagated unchanged.",
    "C16": " Evaluated on MemoryFS (std RwLock) and AsyncMemoryFS (async_std RwLock: guard holder found by type, regions across .await). Also: a removal/insertion is decided inside its own critical section (lookup under the same guard or own outcome checked); publication happens before flush/drop returns. An async guard is not held across an await (other than always-ready in-memory Cursor operations). Hand-out operations leave no intermediate state (append_file does not touch the stored entry; a write handle is built last). Wave 5: handle surface rules (a reader that keeps the lock/Arc can observe two versions); Table M insert guards use the method's real argument.",
    "C17": " Evaluated on both worlds for backends and adapters. Also: the DirectoryExists tolerance is unconditional (no Err return reachable from that arm before the next attempt); PhysicalFS's occupant probe runs after the failed mkdir. The overlay's create and unmark must share a critical section (known finding F31); exists marker-first; create_dir_all slicing sites.",
    "C13": " The callee table includes integer methods that inherit the caller's overflow checks (iN::abs, pow, div_euclid, ...). Wave 5: indexing sites of the async overlay's private helpers are inventoried under their entry points.",
    "C18": " The normalising step strips exactly the leading separator; EmbeddedFS values are built only by the index builder (no derived/second constructor). Inherited trait defaults only answer NotSupported; exists/read_dir are decided by the index maps only. Wave 5: open_file/metadata ask the embedded data only after a hit in the index (found F32, fixed a0fc671); create_dir_all tolerates exactly DirectoryExists (a read-only backend's NotSupported surfaces).",
    "C19": " Evaluated on both worlds. Also: exact round-trip shape (stored = argument, reported = field, up to Some/Into/Clone — no filter or sentinel); an overlay setter that copies up must carry the other timestamps over. PhysicalFS::metadata reports Metadata::modified/created/accessed(..).ok() unconverted. Wave 5: the setters hand the caller's SystemTime to filetime through FileTime::from, followed through private helpers.",
    "C20": " Also: the kind create_dir_all tolerates (DirectoryExists) is built only under a positive directory test of the occupant (overlay, memory, physical; both worlds); stream typestate of the async walk (failed future not kept, error item yielded once). Iterator::flatten over Result items is a discarding consumer. Awaited/moved Results that are only dropped (`let _ = fut.await`) are discarding; the stream route writes to the destination's own handle (no unflushed buffering wrapper). Wave 5: overlay open_file delegation unchanged; async move_file removal per call ordinal.",
}
NA_REASON = "check not implemented yet (build in progress); design in DESIGN.md"

def main():
    checks = []
    na = []
    for p in PROPS:
        pid = p["id"]
        if pid in CLAIMED:
            tech, text, note, ref = CLAIMED[pid]
            text = text + ADDENDA.get(pid, "")
            checks.append({
                "property_id": pid,
                "quick_cmd": "python3 /verif/check.py %s --tier quick" % pid,
                "thorough_cmd": "python3 /verif/check.py %s --tier thorough" % pid,
                "evidence_file": "/verif/evidence/%s.json" % pid,
                "replay_cmd_template": "python3 /verif/check.py %s --list" % pid,
                "engine": "vfs-facts+rules",
                "level_claimed": {"category": "other", "text": text, "design_ref": ref},
                "level_note": note,
                "technique": tech,
            })
        else:
            na.append({"property_id": pid, "reason": NA_REASON})
    m = {
        "version": 1,
        "setup_cmd": "cd /verif && bash bin/setup.sh",
        "hooks": {"guard": "vfs_static_verif_never_set",
                  "enable": "none: static analysis reads /repo's source as it is; no hooks exist in /repo",
                  "baseline_off_cmd": "cd /repo && cargo test --workspace --no-fail-fast --offline",
                  "source_commits": [], "add_only": True},
        "engines": [{"name": "vfs-facts+rules", "path": "/verif/driver + /verif/analysis",
                     "serves_properties": sorted(CLAIMED),
                     "kind_free_text": "static analysis: rustc_private driver dumps type-checked mir_built facts of /repo's working tree; Python rule interpreter (dominators, guard facts, value origins, summaries) decides per-property rule tables"}],
        "checks": checks,
        "not_applicable": na,
        "notes": "All checks are static analyses over rustc's MIR of /repo's current working tree; no vfs code is executed. See DESIGN.md.",
    }
    json.dump(m, open(os.path.join(V, "MANIFEST.json"), "w"), indent=1)
    print("claimed:", len(checks), "not_applicable:", len(na))

if __name__ == "__main__":
    main()
