#!/usr/bin/env python3
"""Regenerates MANIFEST.json from the table below (keeps it schema-valid at all times)."""
import json, os
V = os.path.dirname(os.path.abspath(__file__))
PROPS = [json.loads(l) for l in open(os.path.join(V, "properties.jsonl"))]

# property id -> (technique, level text, level note, design ref)
CLAIMED = {
    "C08": ("effect + provenance analysis over rustc MIR (mutated-operand origin, observer purity)",
            "Static effect/provenance analysis of every call site reachable from OverlayFS (sync and async): each path operand in a mutated position must originate from layers[0]; observers must reach no mutating call. Necessary and, under the stated assumption, sufficient for the property, for all histories/inputs/stackings at once.",
            "Assumes a layer's own observing methods do not mutate that layer (checked as a note for in-crate backends, assumed for foreign FileSystem impls); trusts rustc's MIR and callee resolution.", "DESIGN.md §4 C08"),
}
NA_REASON = "check not implemented yet (build in progress); design in DESIGN.md"

def main():
    checks = []
    na = []
    for p in PROPS:
        pid = p["id"]
        if pid in CLAIMED:
            tech, text, note, ref = CLAIMED[pid]
            checks.append({
                "property_id": pid,
                "quick_cmd": "python3 /verif/check.py %s --tier quick" % pid,
                "thorough_cmd": "python3 /verif/check.py %s --tier thorough" % pid,
                "evidence_file": "/verif/evidence/%s.json" % pid,
                "replay_cmd_template": "python3 /verif/check.py %s --list" % pid,
                "engine": "vfs-facts+rules",
                "level_claimed": {"category": "other", "text": text, "design_ref": ref},
                "level_note": note,
                "technique": tech,
            })
        else:
            na.append({"property_id": pid, "reason": NA_REASON})
    m = {
        "version": 1,
        "setup_cmd": "cd /verif && bash bin/setup.sh",
        "hooks": {"guard": "vfs_static_verif_never_set",
                  "enable": "none: static analysis reads /repo's source as it is; no hooks exist in /repo",
                  "baseline_off_cmd": "cd /repo && cargo test --workspace --no-fail-fast --offline",
                  "source_commits": [], "add_only": True},
        "engines": [{"name": "vfs-facts+rules", "path": "/verif/driver + /verif/analysis",
                     "serves_properties": sorted(CLAIMED),
                     "kind_free_text": "static analysis: rustc_private driver dumps type-checked mir_built facts of /repo's working tree; Python rule interpreter (dominators, guard facts, value origins, summaries) decides per-property rule tables"}],
        "checks": checks,
        "not_applicable": na,
        "notes": "All checks are static analyses over rustc's MIR of /repo's current working tree; no vfs code is executed. See DESIGN.md.",
    }
    json.dump(m, open(os.path.join(V, "MANIFEST.json"), "w"), indent=1)
    print("claimed:", len(checks), "not_applicable:", len(na))

if __name__ == "__main__":
    main()
