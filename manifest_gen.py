#!/usr/bin/env python3
"""Regenerates MANIFEST.json from the table below (keeps it schema-valid at all times)."""
import json, os
V = os.path.dirname(os.path.abspath(__file__))
PROPS = [json.loads(l) for l in open(os.path.join(V, "properties.jsonl"))]

# property id -> (technique, level text, level note, design ref)
CLAIMED = {
    "C08": ("effect + provenance analysis over rustc MIR (mutated-operand origin, observer purity)",
            "Static effect/provenance analysis of every call site reachable from OverlayFS (sync and async): each path operand in a mutated position must originate from layers[0]; observers must reach no mutating call. Necessary and, under the stated assumption, sufficient for the property, for all histories/inputs/stackings at once.",
            "Assumes a layer's own observing methods do not mutate that layer (checked as a note for in-crate backends, assumed for foreign FileSystem impls); trusts rustc's MIR and callee resolution.", "DESIGN.md §4 C08"),
    "C12": ("typestate analysis (labelled/unlabelled VfsError) + who-may-construct + field-footprint rules over rustc MIR; compile-fail witnesses (thorough)",
            "Every error that a path-layer function can return is traced to its sources over the MIR; backend/std results and fresh constructions must pass through with_path with a caller-namespace string. error.rs: VfsError literal only in From<VfsErrorKind> (NotFound normalisation), with_* helpers never touch `kind`, optional trait defaults build NotSupported. Covers all failing calls/states/stackings because the rule is over code paths, not executions.",
            "Decides labelling and the classification constructs, not message texts; trusts rustc MIR and the closure-inlining of map_err closures; adapters may return inner paths by design (the outer path layer relabels).", "DESIGN.md §4 C12"),
    "C13": ("panic-site inventory over rustc MIR with machine-checked discharge idioms and reviewed records; clippy cross-reference (thorough)",
            "All Assert terminators and all calls into a frozen table of panicking std callees in every function of the crate (sync, embedded, async) must be proven unreachable by a guard/origin idiom or a reviewed record whose premises are re-checked each run. Proof-style necessary-and-sufficient for the inventoried panic classes; errs towards alarm.",
            "Not covered: allocation failure, stack overflow, panics inside std/dependencies on valid arguments, async 'resumed after completion' (covered structurally by C15 R15.4). Assumes the FileSystem path contract and std/rust-embed contracts listed in the evidence.", "DESIGN.md §4 C13"),
    "C16": ("lock-region analysis over rustc MIR (guard live ranges, lock events per path, re-entrancy, publication re-validation)",
            "Sufficient structural conditions for per-call linearizability of MemoryFS under every schedule: one critical section per operation, no lock event under a live guard (incl. callees/closures), no panic under the lock, writer publication re-validates. Violations of the sufficient condition are triaged (known findings / reviewed exceptions).",
            "Sufficient, not necessary: a flagged method is a finding only after reading (R16.4 exceptions). Assumes std RwLock semantics and that all map accesses go through the guard (type system).", "DESIGN.md §4 C16"),
    "C20": ("Result-consumer classification + Err-edge reachability over rustc MIR with a frozen escape table",
            "In adapters and the path layer (sync+async) the Err of every Result<_, VfsError|io::Error> may only propagate, be preserved, or be matched with all non-escape arms leading to error returns; discarding combinators, unused results and Err edges reaching a success return are violations unless the error stems from pure path computation or a listed escape (NotSupported fast paths, DirectoryExists in create_dir_all, FileNotFound in overlay exists). Covers every fault position k at once.",
            "Does not decide whether an alternative route reproduces the full effect, nor partial effects left behind by a failed composite; panicking consumers are C13's concern.", "DESIGN.md §4 C20"),
}
NA_REASON = "check not implemented yet (build in progress); design in DESIGN.md"

def main():
    checks = []
    na = []
    for p in PROPS:
        pid = p["id"]
        if pid in CLAIMED:
            tech, text, note, ref = CLAIMED[pid]
            checks.append({
                "property_id": pid,
                "quick_cmd": "python3 /verif/check.py %s --tier quick" % pid,
                "thorough_cmd": "python3 /verif/check.py %s --tier thorough" % pid,
                "evidence_file": "/verif/evidence/%s.json" % pid,
                "replay_cmd_template": "python3 /verif/check.py %s --list" % pid,
                "engine": "vfs-facts+rules",
                "level_claimed": {"category": "other", "text": text, "design_ref": ref},
                "level_note": note,
                "technique": tech,
            })
        else:
            na.append({"property_id": pid, "reason": NA_REASON})
    m = {
        "version": 1,
        "setup_cmd": "cd /verif && bash bin/setup.sh",
        "hooks": {"guard": "vfs_static_verif_never_set",
                  "enable": "none: static analysis reads /repo's source as it is; no hooks exist in /repo",
                  "baseline_off_cmd": "cd /repo && cargo test --workspace --no-fail-fast --offline",
                  "source_commits": [], "add_only": True},
        "engines": [{"name": "vfs-facts+rules", "path": "/verif/driver + /verif/analysis",
                     "serves_properties": sorted(CLAIMED),
                     "kind_free_text": "static analysis: rustc_private driver dumps type-checked mir_built facts of /repo's working tree; Python rule interpreter (dominators, guard facts, value origins, summaries) decides per-property rule tables"}],
        "checks": checks,
        "not_applicable": na,
        "notes": "All checks are static analyses over rustc's MIR of /repo's current working tree; no vfs code is executed. See DESIGN.md.",
    }
    json.dump(m, open(os.path.join(V, "MANIFEST.json"), "w"), indent=1)
    print("claimed:", len(checks), "not_applicable:", len(na))

if __name__ == "__main__":
    main()
